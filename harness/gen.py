"""Random model generator: structured, mostly-valid models from the repo's own constructors.

Every random choice comes from the `random.Random` passed in (seeded from VERIF_SEED), so a
case replays exactly.  All quantities are on a dyadic grid (exact float arithmetic).
"""
import random

WORKS = [0.0, 0.5, 1.0, 1.5, 2.0, 3.0, 4.0, 6.0]
PROGS = [0.0, 0.0, 0.0, 0.25, 0.5, 1.0]
SKILLS = [None, 0.0, 0.5, 1.0, 1.0, 2.0]
COSTS = [0.0, 0.5, 1.0, 6.0, 10.0]
SIZES = [0.5, 1.0, 1.0, 2.0]
CAPS = [1.0, 1.0, 2.0, 3.0]


def gen_spec(rng, profile="full", max_tasks=6):
    spec = _gen_spec(rng, profile, max_tasks)
    return decorate(spec)


def decorate(spec):
    """attributes that the modelled behaviour must NOT depend on, drawn from a generator of their own (so
    that every (seed, index) case keeps its earlier shape): quality skills of workers (they only feed the
    component error bookkeeping, which no property and no log observes)"""
    import json as _json
    import random as _random
    import zlib as _zlib
    rq = _random.Random(_zlib.crc32(_json.dumps(spec, sort_keys=True, default=str).encode()))
    for tm in spec.get("teams", []):
        for w in tm["workers"]:
            if rq.random() < 0.35 and w.get("skills"):
                names = sorted(w["skills"])
                w["quality"] = {n: rq.choice([0.25, 0.5, 1.0]) for n in names if rq.random() < 0.7}
    # rarely written inputs (these DO matter to the modelled behaviour; drawn here so that the earlier shape
    # of every (seed, index) case is kept): a second link of another kind from the same predecessor, fixed-ID
    # lists that are given but empty, due times on tail tasks
    tasks = spec.get("tasks", [])
    for t in tasks:
        if t.get("inputs") and rq.random() < 0.15:
            j, d = rq.choice(t["inputs"])
            t["inputs"] = [list(e) for e in t["inputs"]] + [[j, rq.choice([k for k in (2, 2, 2, 1, 3, 0) if k != d])]]
        if not t.get("auto"):
            if t.get("fixW") is None and rq.random() < 0.03:
                t["fixW"] = []
            if t.get("need_fac") and t.get("fixF") is None and rq.random() < 0.05:
                t["fixF"] = []
        if t.get("due") is None and rq.random() < 0.25:
            t["due"] = rq.randint(0, 12)
    # a non-automatic task may carry a work_amount_progress_of_unit_step_time other than 1 (it only means something
    # for automatic tasks); two facilities of one workplace may share a name
    for t in tasks:
        if not t.get("auto") and rq.random() < 0.12:
            t["auto_rate"] = rq.choice([0.5, 2.0, 0.0])
    for q in spec.get("workplaces", []):
        fs = q["facilities"]
        if len(fs) > 1 and rq.random() < 0.25:
            a, b = rq.sample(range(len(fs)), 2)
            fs[a]["name"] = fs[b]["name"]
    # components wired through the constructor (BaseComponent(targeted_task_list=[...])): the tasks' own
    # target_component stays None.  Only where that is a legal model: the simulator dereferences
    # task.target_component for facility tasks and automatic tasks of components
    in_comp = {k for cs in spec.get("components", []) for k in cs["tasks"]}
    if in_comp and not any(tasks[k].get("need_fac") or tasks[k].get("auto") for k in in_comp if k < len(tasks)) and rq.random() < 0.5:
        spec["comp_wiring"] = "ctor"
    # the workflow grown task by task (append_child_task) instead of BaseWorkflow([...])
    if rq.random() < 0.15:
        spec["wf_build"] = "incremental"
    # workplace links declared on the input side only (BaseWorkplace(input_workplace_list=[...]))
    if rq.random() < 0.15:
        spec["wp_wiring"] = "ctor"
    # per-resource absence lists need not be ascending
    for tm in spec.get("teams", []):
        for w in tm["workers"]:
            if len(w.get("absence", [])) > 1 and rq.random() < 0.4:
                w["absence"] = list(reversed(w["absence"]))
    for q in spec.get("workplaces", []):
        for f in q["facilities"]:
            if len(f.get("absence", [])) > 1 and rq.random() < 0.4:
                f["absence"] = list(reversed(f["absence"]))
    # teams wired through the constructor (BaseTeam(targeted_task_list=...)): the tasks' own allocated_team_list
    # then stays empty; the simulator reads the team side only
    if rq.random() < 0.2:
        spec["team_wiring"] = "ctor"
    # what IDs look like must not matter: plain integers from 0 per kind (a falsy ID; equal IDs for objects of
    # different kinds) or the same as strings
    r = rq.random()
    if r < 0.1:
        spec["id_scheme"] = "int0"
    elif r < 0.2:
        spec["id_scheme"] = "str0"
    return spec


def _gen_spec(rng, profile="full", max_tasks=6):
    """profile: 'core' (tasks+workers), 'full' (components, workplaces, facilities too).
    A 'full' case picks a theme so that the rarer interactions are exercised on purpose."""
    if profile == "full":
        r = rng.random()
        if r < 0.25:
            return gen_facility_theme(rng)
        if r < 0.40:
            return gen_chain_theme(rng)
        if r < 0.50:
            return gen_contention_theme(rng)
        if r < 0.62:
            return gen_dense_dag_theme(rng)
        if r >= 0.96:
            return gen_auto_theme(rng)
    nT = rng.randint(1, max_tasks)
    share_names = rng.random() < 0.2
    dep_mix = rng.choice(["fs", "fs", "mixed", "mixed", "ss", "ff"])
    tasks = []
    for i in range(nT):
        t = dict(work=rng.choice(WORKS), prog=rng.choice(PROGS))
        if share_names and i > 0 and rng.random() < 0.4:
            t["name"] = tasks[rng.randrange(i)].get("name", "T%d" % 0)
        else:
            t["name"] = "T%d" % i
        if rng.random() < 0.15:
            t["auto"] = True
            t["auto_rate"] = rng.choice([0.5, 1.0, 1.0, 2.0])
        inputs = []
        if i > 0:
            k = rng.choice([0, 1, 1, 1, 2])
            for j in rng.sample(range(i), min(k, i)):
                if dep_mix == "fs":
                    d = 0
                elif dep_mix == "ss":
                    d = rng.choice([0, 1, 1])
                elif dep_mix == "ff":
                    d = rng.choice([0, 2, 2, 3])
                else:
                    d = rng.choice([0, 0, 1, 2, 3])
                inputs.append([j, d])
        t["inputs"] = inputs
        t["wrule"] = rng.choice([0, 0, 1, 2, 3])
        t["frule"] = rng.choice([0, 1, 1, 2, 3])
        t["wprule"] = rng.choice([0, 1])
        if rng.random() < 0.3:
            t["due"] = rng.randint(0, 8)
        tasks.append(t)
    # shuffle task list order relative to the topological order sometimes
    # (dependencies then point forward as well as backward in list order)
    if rng.random() < 0.4:
        perm = list(range(nT))
        rng.shuffle(perm)  # new position k holds old task perm[k]
        inv = {old: new for new, old in enumerate(perm)}
        tasks = [dict(tasks[old], inputs=[[inv[j], d] for j, d in tasks[old]["inputs"]]) for old in perm]

    names = sorted(set(t["name"] for t in tasks))
    nTeams = rng.randint(1, 3)
    teams = []
    nW = 0
    for a in range(nTeams):
        workers = []
        for _ in range(rng.randint(0 if a > 0 else 1, 3)):
            sk = {}
            for n in names:
                v = rng.choice(SKILLS)
                if v is not None:
                    sk[n] = v
            w = dict(skills=sk, cost=rng.choice(COSTS), solo=rng.random() < 0.15)
            if rng.random() < 0.25:
                w["absence"] = sorted(rng.sample(range(0, 10), rng.randint(1, 3)))
            workers.append(w)
            nW += 1
        teams.append(dict(workers=workers, targets=[]))
    for i, t in enumerate(tasks):
        if t.get("auto") and rng.random() < 0.7:
            continue
        r = rng.random()
        if r < 0.08:
            continue  # no team at all: infeasible on purpose
        k = 1 if r < 0.8 else 2
        for a in rng.sample(range(nTeams), min(k, nTeams)):
            teams[a]["targets"].append(i)
        if nW > 0 and rng.random() < 0.12:
            t["fixW"] = sorted(rng.sample(range(nW), rng.randint(1, min(2, nW))))
            if rng.random() < 0.2:
                t["fixW"].append(nW + 5)  # an ID that names nobody

    spec = dict(tasks=tasks, teams=teams, components=[], workplaces=[])
    if profile == "full" and rng.random() < 0.7:
        add_product(rng, spec, names, nW)
    return spec


def add_product(rng, spec, names, nW):
    tasks = spec["tasks"]
    nT = len(tasks)
    nC = rng.randint(1, 3)
    comps = [dict(tasks=[], size=rng.choice(SIZES)) for _ in range(nC)]
    for i in range(nT):
        if rng.random() < 0.75:
            comps[rng.randrange(nC)]["tasks"].append(i)
    nWp = rng.randint(1, 3)
    wps = []
    fcount = 0
    fnames = []
    for p in range(nWp):
        facs = []
        for _ in range(rng.randint(0, 2)):
            sk = {}
            for n in names:
                v = rng.choice(SKILLS)
                if v is not None:
                    sk[n] = v
            f = dict(name="F%d" % fcount if rng.random() < 0.8 else "Fshared", skills=sk,
                     cost=rng.choice(COSTS), solo=rng.random() < 0.15)
            if rng.random() < 0.2:
                f["absence"] = sorted(rng.sample(range(0, 10), rng.randint(1, 3)))
            fnames.append(f["name"])
            facs.append(f)
            fcount += 1
        wps.append(dict(facilities=facs, cap=rng.choice(CAPS), targets=[], inputs=[]))
    if nWp > 1 and rng.random() < 0.4:
        for p in range(1, nWp):
            if rng.random() < 0.6:
                wps[p]["inputs"] = [rng.randrange(p)]
    in_comp = {i for c in comps for i in c["tasks"]}
    for i in sorted(in_comp):
        for p in range(nWp):
            if rng.random() < 0.6:
                wps[p]["targets"].append(i)
        if not tasks[i].get("auto") and fcount > 0 and rng.random() < 0.6:
            tasks[i]["need_fac"] = True
            if rng.random() < 0.1:
                tasks[i]["fixF"] = sorted(rng.sample(range(fcount), 1))
    # workers get facility skills and sometimes a main workplace
    for tm in spec["teams"]:
        for w in tm["workers"]:
            fs = {}
            for fn in sorted(set(fnames)):
                v = rng.choice([None, 0.0, 1.0, 1.0, 1.0])
                if v is not None:
                    fs[fn] = v
            w["fac_skills"] = fs
            if rng.random() < 0.4:
                w["main_wp"] = rng.randrange(nWp)
    for i, t in enumerate(tasks):
        mine = [q for q in range(nWp) if i in wps[q]["targets"]]
        if len(mine) > 1 and rng.random() < 0.4:
            rng.shuffle(mine)
            t["wps_order"] = mine
    spec["components"] = comps
    spec["workplaces"] = wps


def gen_auto_theme(rng):
    """projects that run by themselves: every task automatic, some bound to components that must be placed
    at a workplace first; teams with no worker at all, or with workers who are never free for them"""
    nT = rng.randint(2, 5)
    tasks = []
    for i in range(nT):
        t = dict(work=rng.choice([1.0, 2.0, 3.0]), prog=0.0, name="T%d" % i, auto=True, auto_rate=rng.choice([0.5, 1.0, 2.0]),
                 inputs=[], wrule=0, frule=0, wprule=rng.choice([0, 1]))
        if i and rng.random() < 0.6:
            t["inputs"] = [[rng.randrange(i), rng.choice([0, 0, 1])]]
        tasks.append(t)
    ids = list(range(nT))
    rng.shuffle(ids)
    comps, k = [], 0
    for c in range(rng.randint(1, 2)):
        n = rng.randint(1, 2)
        comps.append(dict(tasks=sorted(ids[k:k + n]), size=rng.choice([1.0, 1.0, 2.0])))
        k += n
    names = [t["name"] for t in tasks]
    wps = []
    for q in range(rng.randint(1, 2)):
        facs = [dict(name="F%d" % q, skills={n: 1.0 for n in names if rng.random() < 0.9}, cost=rng.choice(COSTS), solo=False)]
        wps.append(dict(facilities=facs, cap=rng.choice([1.0, 2.0, 3.0]), targets=[i for i in range(nT) if rng.random() < 0.9], inputs=[]))
    r = rng.random()
    if r < 0.5:
        workers = []
    elif r < 0.8:
        workers = [dict(skills={}, cost=rng.choice(COSTS), solo=False)]
    else:
        workers = [dict(skills={n: 1.0 for n in names}, cost=rng.choice(COSTS), solo=False, absence=[0, 1, 2])]
    return dict(tasks=tasks, teams=[dict(workers=workers, targets=list(range(nT)))], components=comps, workplaces=wps)


def gen_facility_theme(rng):
    """coherent shop-floor models: components with 1-3 facility tasks each, workplaces whose
    facilities can do them, workers who can operate the facilities; absences early in the run"""
    nC = rng.randint(1, 3)
    nWp = rng.randint(1, 3)
    tasks, comps = [], []
    for c in range(nC):
        k = rng.randint(1, 3)
        ids = []
        for j in range(k):
            i = len(tasks)
            t = dict(work=rng.choice([1.0, 2.0, 3.0, 4.0]), prog=rng.choice([0.0, 0.0, 0.0, 0.5]), name="T%d" % (i % 4),
                     need_fac=rng.random() < 0.85, inputs=[], wrule=rng.choice([0, 1, 2, 3]), frule=rng.choice([0, 1, 2, 3]),
                     wprule=rng.choice([0, 1]))
            if ids and rng.random() < 0.6:
                t["inputs"] = [[rng.choice(ids), rng.choice([0, 0, 1, 2])]]
            elif tasks and rng.random() < 0.2:
                t["inputs"] = [[rng.randrange(len(tasks)), 0]]
            if rng.random() < 0.1:
                t["auto"] = True
                t["need_fac"] = False
            tasks.append(t)
            ids.append(i)
        comps.append(dict(tasks=ids, size=rng.choice(SIZES)))
    names = sorted(set(t["name"] for t in tasks))
    wps, fcount, fnames = [], 0, []
    for q in range(nWp):
        facs = []
        for _ in range(rng.randint(1, 3)):
            f = dict(name="F%d" % (fcount % 3), skills={n: rng.choice([0.5, 1.0, 1.0, 2.0]) for n in names if rng.random() < 0.85},
                     cost=rng.choice(COSTS), solo=rng.random() < 0.15)
            if rng.random() < 0.5:
                f["absence"] = sorted(rng.sample(range(0, 7), rng.randint(1, 3)))
            fnames.append(f["name"])
            facs.append(f)
            fcount += 1
        wps.append(dict(facilities=facs, cap=rng.choice([1.0, 2.0, 2.0, 3.0]), targets=[], inputs=[]))
    if nWp > 1 and rng.random() < 0.5:
        for q in range(1, nWp):
            if rng.random() < 0.6:
                wps[q]["inputs"] = [rng.randrange(q)]
    for i, t in enumerate(tasks):
        for q in range(nWp):
            if rng.random() < 0.7:
                wps[q]["targets"].append(i)
        if t.get("need_fac") and rng.random() < 0.1:
            t["fixF"] = sorted(rng.sample(range(fcount), min(fcount, 2)))
    teams = []
    nW = 0
    for a in range(rng.randint(1, 2)):
        workers = []
        for _ in range(rng.randint(1, 3)):
            w = dict(skills={n: rng.choice([0.5, 1.0, 1.0, 2.0]) for n in names if rng.random() < 0.85},
                     fac_skills={fn: rng.choice([0.0, 1.0, 1.0, 1.0]) for fn in sorted(set(fnames)) if rng.random() < 0.9},
                     cost=rng.choice(COSTS), solo=rng.random() < 0.15)
            if rng.random() < 0.35:
                w["absence"] = sorted(rng.sample(range(0, 7), rng.randint(1, 3)))
            if rng.random() < 0.4:
                w["main_wp"] = rng.randrange(nWp)
            workers.append(w)
            nW += 1
        teams.append(dict(workers=workers, targets=[i for i in range(len(tasks)) if rng.random() < 0.85]))
    for i, t in enumerate(tasks):
        mine = [q for q in range(nWp) if i in wps[q]["targets"]]
        if len(mine) > 1 and rng.random() < 0.5:
            rng.shuffle(mine)
            t["wps_order"] = mine
    if rng.random() < 0.3:      # equal capacities and skills: ties between workplaces
        for q in wps:
            q["cap"] = 2.0
    return dict(tasks=tasks, teams=teams, components=comps, workplaces=wps)


def gen_chain_theme(rng):
    """chains and fans of SS/FF/SF links with one dedicated worker per task and small work
    amounts, so that predecessors and successors run out of work in the same steps"""
    nT = rng.randint(2, 6)
    tasks = []
    for i in range(nT):
        t = dict(work=rng.choice([0.0, 1.0, 1.0, 2.0, 2.0, 3.0, 5.0]), prog=rng.choice([0.0, 0.0, 0.0, 0.5, 1.0]), name="T%d" % i, inputs=[])
        if i > 0:
            for j in rng.sample(range(i), min(i, rng.choice([1, 1, 2]))):
                t["inputs"].append([j, rng.choice([1, 2, 2, 2, 3, 3, 0])])
        if rng.random() < 0.15:
            t["auto"] = True
            t["auto_rate"] = rng.choice([0.5, 1.0, 2.0])
        tasks.append(t)
    if rng.random() < 0.5:
        perm = list(range(nT))
        rng.shuffle(perm)
        inv = {old: new for new, old in enumerate(perm)}
        tasks = [dict(tasks[old], inputs=[[inv[j], d] for j, d in tasks[old]["inputs"]]) for old in perm]
    workers = []
    for i in range(nT):
        if rng.random() < 0.9:
            w = dict(skills={tasks[i]["name"]: rng.choice([0.5, 1.0, 1.0, 2.0])}, cost=rng.choice(COSTS), solo=rng.random() < 0.3)
            if rng.random() < 0.2:
                w["absence"] = sorted(rng.sample(range(0, 6), rng.randint(1, 2)))
            workers.append(w)
    return dict(tasks=tasks, teams=[dict(workers=workers, targets=list(range(nT)))], components=[], workplaces=[])


def gen_dense_dag_theme(rng):
    """dense dependency graphs (shortcut edges next to longer paths, several heads and tails, all four
    link kinds but mostly FS) with few workers: PERT waves revisit tasks and priorities matter"""
    nT = rng.randint(4, 8)
    kinds = rng.choice([[0], [0], [0, 0, 0, 1, 2, 3]])
    tasks = []
    for i in range(nT):
        t = dict(work=rng.choice([0.0, 0.5, 1.0, 2.0, 3.0, 4.0]), prog=rng.choice([0.0, 0.0, 0.0, 0.5]), name="T%d" % (i % 4), inputs=[])
        if i > 0:
            for j in rng.sample(range(i), min(i, rng.choice([0, 1, 2, 2, 3]))):
                t["inputs"].append([j, rng.choice(kinds)])
        tasks.append(t)
    if rng.random() < 0.5:
        perm = list(range(nT))
        rng.shuffle(perm)
        inv = {old: new for new, old in enumerate(perm)}
        tasks = [dict(tasks[old], inputs=[[inv[j], d] for j, d in tasks[old]["inputs"]]) for old in perm]
    names = sorted(set(t["name"] for t in tasks))
    workers = [dict(skills={n: rng.choice([0.5, 1.0, 1.0, 2.0]) for n in names if rng.random() < 0.9}, cost=rng.choice(COSTS),
                    solo=rng.random() < 0.4) for _ in range(rng.randint(1, 3))]
    return dict(tasks=tasks, teams=[dict(workers=workers, targets=list(range(nT)))], components=[], workplaces=[])


def gen_contention_theme(rng):
    """many ready tasks, few workers with overlapping skills: priority order decides"""
    nT = rng.randint(3, 7)
    tasks = [dict(work=rng.choice([1.0, 2.0, 2.0, 3.0, 4.0]), prog=rng.choice([0.0, 0.0, 0.25]), name="T%d" % (i % 3),
                  inputs=([[rng.randrange(i), 0]] if i > 0 and rng.random() < 0.3 else []), wrule=rng.choice([0, 1, 2, 3]))
             for i in range(nT)]
    names = sorted(set(t["name"] for t in tasks))
    teams = []
    for a in range(rng.randint(1, 2)):
        workers = [dict(skills={n: rng.choice([0.5, 1.0, 2.0]) for n in names if rng.random() < 0.8}, cost=rng.choice(COSTS),
                        solo=rng.random() < 0.25) for _ in range(rng.randint(1, 3))]
        teams.append(dict(workers=workers, targets=[i for i in range(nT) if rng.random() < 0.8]))
    nW = sum(len(tm["workers"]) for tm in teams)
    for t in tasks:
        if rng.random() < 0.15:
            t["fixW"] = sorted(rng.sample(range(nW), min(nW, 2)))
    return dict(tasks=tasks, teams=teams, components=[], workplaces=[])


def gen_params(rng, spec):
    if rng.random() < 0.35:
        spec["id_seed"] = rng.randrange(1000)     # IDs whose string order differs from the list order
    p = dict(rule=rng.randrange(9), autoFlag=rng.random() < 0.3, maxTime=rng.choice([0, 1, 3, 8, 40, 40, 40, 40, 40, 40]))
    r = rng.random()
    if r < 0.5:
        p["absence"] = []
    else:
        k = rng.randint(1, 4)
        p["absence"] = [rng.choice([0, 1, 2, 3, 4, 5, 6, 9, 30]) for _ in range(k)]
        if rng.random() < 0.5:
            p["absence"] = sorted(set(p["absence"]))
    # drawn last (keeps every earlier choice of a (seed, index) case unchanged): in one case out of seven the
    # project object is NOT fresh — it has already been simulated (forward or backward, other parameters)
    # before the run that is observed
    if rng.random() < 0.15:
        p["warmup"] = dict(rule=rng.randrange(9), autoFlag=rng.random() < 0.3, maxTime=rng.choice([2, 5, 40]),
                           absence=sorted(set(rng.choice([0, 1, 2, 4]) for _ in range(rng.randint(0, 2)))),
                           backward=rng.random() < 0.3, due=rng.random() < 0.5)
        # between the two runs the per-resource calendars are edited (the earlier run saw other absence lists)
        p["warmup"]["edit_absence"] = rng.random() < 0.5
        # and the observed run may keep the state and/or the logs of the earlier one
        if rng.random() < 0.4:
            p["initState"], p["initLog"] = rng.choice([(True, False), (False, True), (False, False)])
            if p["initState"] is False and not p["warmup"]["backward"] and rng.random() < 0.7:
                # a continued run given a calendar with steps that lie behind the clock and steps still to come
                k = p["warmup"]["maxTime"] if p["warmup"]["maxTime"] < 40 else 3
                p["absence"] = sorted(set([max(k - 2, 0), k + 1, rng.choice([0, 1, k, k + 2, k + 3])]))
    elif rng.random() < 0.05:
        # the very first run of a freshly built model with an initialisation flag off (the constructors'
        # defaults are then what the run starts from)
        p["initState"], p["initLog"] = rng.choice([(True, False), (False, True), (False, False)])
    return p


# ---- bounded-exhaustive scope (thorough tier) -------------------------------------------------------

EXH_WORKS = [0.0, 1.0, 2.0]
EXH_WORKERS = [  # (number of workers, solo flag of the first, skill of the second)
    (1, False, None), (1, True, None), (2, False, 1.0), (2, True, 1.0), (2, False, 0.5)]


def exh_size(nT):
    pairs = nT * (nT - 1) // 2
    return (5 ** pairs) * (len(EXH_WORKS) ** nT) * len(EXH_WORKERS) * 3 * 2


def exh_total():
    return sum(exh_size(n) for n in (1, 2, 3))


def exh_spec(index):
    """the index-th model of the scope: <= 3 tasks, every pair i<j unlinked or linked by one of the four
    kinds, work in {0,1,2}, one or two workers (solo / half-skilled variants), three task rules"""
    for nT in (1, 2, 3):
        if index < exh_size(nT):
            break
        index -= exh_size(nT)
    pairs = [(i, j) for j in range(nT) for i in range(j)]
    links = []
    for _ in pairs:
        links.append(index % 5)
        index //= 5
    works = []
    for _ in range(nT):
        works.append(EXH_WORKS[index % len(EXH_WORKS)])
        index //= len(EXH_WORKS)
    nw, solo, sk2 = EXH_WORKERS[index % len(EXH_WORKERS)]
    index //= len(EXH_WORKERS)
    rule = [0, 3, 4][index % 3]
    index //= 3
    tasks = [dict(work=works[i], name="T%d" % i, inputs=[]) for i in range(nT)]
    for (i, j), k in zip(pairs, links):
        if k:
            tasks[j]["inputs"].append([i, k - 1])
    names = ["T%d" % i for i in range(nT)]
    workers = [dict(skills={n: 1.0 for n in names}, cost=1.0, solo=solo)]
    if nw == 2:
        workers.append(dict(skills={n: sk2 for n in names}, cost=2.0, solo=False))
    spec = dict(tasks=tasks, teams=[dict(workers=workers, targets=list(range(nT)))], components=[], workplaces=[])
    params = dict(rule=rule, absence=[1] if index % 2 else [], autoFlag=False, maxTime=30)
    return spec, params


def nest_spec(rng, spec):
    """turn the flat product of a spec into a forest (component i may become a child of some j < i)"""
    cs = spec.get("components", [])
    if len(cs) < 2:
        return False
    done = False
    for i in range(1, len(cs)):
        if rng.random() < 0.7:
            cs[rng.randrange(i)].setdefault("children", []).append(i)
            done = True
    return done


def gen_nested(rng):
    """a model with a nested product (outside the Lean model: real runs + predicates only)"""
    for _ in range(50):
        spec = gen_facility_theme(rng) if rng.random() < 0.7 else gen_spec(rng, "full")
        if spec.get("components") and nest_spec(rng, spec):
            return spec
    return spec
