"""API-corner streams (real code only): entry points and options that an end-to-end `simulate()` never reaches —
read-only queries on a paused project (C08), `add_labor_cost` with every flag combination (C07), class-level
remove/insert_absence_time_list with repeated indices (C18), placement logs after inserting absence steps (C13),
non-finite capacities through JSON (C16).  Each takes the property's Context and a case count and appends
violations with a replayable description.  Added after seeded round 12, whose authors were told to look for exactly
such corners."""
from env import *  # noqa: F401,F403
import env
import datetime
import json
import os
import random
import tempfile

import codec
import gen
from lockstep import real_simulate
from real import build, extract_model, snapshot, Index


def _case(seed, i, salt):
    rng = random.Random(seed * 10007 + i * 131 + salt)
    spec = gen.gen_spec(rng, "full")
    params = gen.gen_params(rng, spec)
    params.pop("warmup", None)
    params["initState"] = params["initLog"] = True
    return rng, spec, params


def _finish(ctx, key, cnt, what):
    ctx.evaluations += cnt["cases"]
    ctx.traces_validated += cnt["cases"]
    ctx.distribution[key] = cnt
    ctx.rule += "; plus " + what


# ---- C08: queries are read-only -------------------------------------------------------------------------------

def run_readonly_queries(ctx, n):
    cnt = dict(cases=0, violations=0, exceptions=0)
    init = datetime.datetime(2022, 1, 1)
    unit = datetime.timedelta(hours=6)
    for i in range(n):
        rng, spec, params = _case(ctx.seed, i, 71)
        k = rng.choice([1, 2, 3, 5, 40])
        case = dict(stream="readonly-queries", seed=ctx.seed, index=i, spec=spec, params=dict(params, maxTime=k))
        try:
            project = build(spec)
            ix = Index(project)
            real_simulate(project, dict(params, maxTime=k))
            before = snapshot(project, ix)
            times = [rng.randrange(0, 4) for _ in range(rng.randint(0, 3))]
            for o in ix.tasks + ix.comps + ix.workers + ix.facs:
                o.get_time_list_for_gannt_chart(finish_margin=rng.choice([1.0, 0.0, 0.5]))
            for o in ix.tasks + ix.comps:
                o.create_data_for_gantt_plotly(init, unit, view_ready=rng.random() < 0.5)
            for o in project.organization.team_list + project.organization.workplace_list:
                o.create_data_for_gantt_plotly(init, unit, view_ready=rng.random() < 0.5, view_absence=rng.random() < 0.5)
            project.workflow.create_data_for_gantt_plotly(init, unit)
            project.product.create_data_for_gantt_plotly(init, unit)
            wf, prod = project.workflow, project.product
            for f in (wf.extract_none_task_list, wf.extract_ready_task_list, wf.extract_working_task_list, wf.extract_finished_task_list,
                      prod.extract_none_component_list, prod.extract_ready_component_list, prod.extract_working_component_list,
                      prod.extract_finished_component_list):
                f(times)
            for tm in project.organization.team_list:
                tm.extract_free_worker_list(times)
                tm.extract_working_worker_list(times)
            for q in project.organization.workplace_list:
                q.extract_free_facility_list(times)
                q.extract_working_facility_list(times)
            after = snapshot(project, ix)
            # and the run can go on as if nobody had looked
            ref = build(spec)
            real_simulate(ref, dict(params, maxTime=k))
            real_simulate(project, dict(params, maxTime=40, initState=False, initLog=False))
            real_simulate(ref, dict(params, maxTime=40, initState=False, initLog=False))
            end, end_ref = snapshot(project, ix), snapshot(ref, Index(ref))
        except Exception as e:
            cnt["exceptions"] += 1
            ctx.violations.append(dict(property=ctx.pid, what="a query on a paused project raised %s: %s" % (type(e).__name__, e), case=case))
            continue
        cnt["cases"] += 1
        d = codec.diff_states(after, before) or codec.diff_states(end, end_ref)
        if d:
            cnt["violations"] += 1
            ctx.violations.append(dict(property=ctx.pid, what="read-only queries (Gantt data, chart rows, extract_*) changed the project: %s differ" % d[:6], case=case))
    _finish(ctx, "readonly_queries", cnt, "read-only queries on paused projects must leave every log and the continued run unchanged (real code only)")


# ---- C07: add_labor_cost with every flag combination -------------------------------------------------------------

def run_add_labor_cost_flags(ctx, n):
    cnt = dict(cases=0, violations=0, exceptions=0)
    for i in range(n):
        rng, spec, params = _case(ctx.seed, i, 73)
        k = rng.choice([1, 2, 3, 5])
        case = dict(stream="add-labor-cost", seed=ctx.seed, index=i, spec=spec, params=dict(params, maxTime=k))
        try:
            project = build(spec)
            ix = Index(project)
            real_simulate(project, dict(params, maxTime=k))
            org = project.organization
            bad = None
            for ow in (True, False):
                for zw in (True, False):
                    for zf in (True, False):
                        got = org.add_labor_cost(only_working=ow, add_zero_to_all_workers=zw, add_zero_to_all_facilities=zf)
                        total = 0.0
                        for kind, objs, zero, WORK in (("worker", ix.workers, zw, BaseWorkerState.WORKING), ("facility", ix.facs, zf, BaseFacilityState.WORKING)):
                            for o in objs:
                                exp = 0.0 if zero else (o.cost_per_time if (not ow or o.state == WORK) else 0.0)
                                total += exp
                                if o.cost_list[-1] != exp and bad is None:
                                    bad = "%s %s booked %r, expected %r (only_working=%s, add_zero_to_all_workers=%s, add_zero_to_all_facilities=%s)" % (
                                        kind, o.name, o.cost_list[-1], exp, ow, zw, zf)
                        if bad is None and (codec.to_frac(got) != codec.to_frac(total) or codec.to_frac(org.cost_list[-1]) != codec.to_frac(total)):
                            bad = "organization booked %r (returned %r), the members' sum is %r (flags %s %s %s)" % (org.cost_list[-1], got, total, ow, zw, zf)
                        for grp, members in [(t_, t_.worker_list) for t_ in org.team_list] + [(q_, q_.facility_list) for q_ in org.workplace_list]:
                            s_ = sum(codec.to_frac(m.cost_list[-1]) for m in members)
                            if bad is None and codec.to_frac(grp.cost_list[-1]) != s_:
                                bad = "%s booked %r, its members' sum is %s" % (grp.name, grp.cost_list[-1], s_)
        except Exception as e:
            cnt["exceptions"] += 1
            ctx.violations.append(dict(property=ctx.pid, what="add_labor_cost raised %s: %s" % (type(e).__name__, e), case=case))
            continue
        cnt["cases"] += 1
        if bad:
            cnt["violations"] += 1
            ctx.violations.append(dict(property=ctx.pid, what="add_labor_cost: " + bad, case=case))
    _finish(ctx, "add_labor_cost_flags", cnt, "BaseOrganization.add_labor_cost called directly with all eight flag combinations on paused projects (real code only)")


# ---- C07: level sums after class-level inserts with unsorted index lists ------------------------------------------------

def run_cost_sums_after_class_inserts(ctx, n):
    cnt = dict(cases=0, violations=0, exceptions=0)
    for i in range(n):
        rng, spec, params = _case(ctx.seed, i, 89)
        case = dict(stream="cost-sums-after-class-inserts", seed=ctx.seed, index=i, spec=spec, params=dict(params, maxTime=40))
        try:
            project = build(spec)
            real_simulate(project, dict(params, maxTime=40, absence=[]))
            T = project.time
            if T < 3:
                continue
            L = rng.sample(range(0, T), rng.randint(2, min(4, T)))     # distinct, in any order
            target = rng.choice(["organization", "teams"])
            org = project.organization
            if target == "organization":
                org.insert_absence_time_list(list(L))
            else:
                for part in list(org.team_list) + list(org.workplace_list):
                    part.insert_absence_time_list(list(L))
            bad = None
            for t_ in org.team_list:
                for k in range(len(t_.cost_list)):
                    ws = [w.cost_list[k] for w in t_.worker_list if k < len(w.cost_list)]
                    if len(ws) == len(t_.worker_list) and abs(t_.cost_list[k] - sum(ws)) > 1e-9 and bad is None:
                        bad = "after insert_absence_time_list(%s) on %s: team %s cost %r at step %d, its workers sum to %r" % (L, target, t_.name, t_.cost_list[k], k, sum(ws))
            for q_ in org.workplace_list:
                for k in range(len(q_.cost_list)):
                    fs = [f.cost_list[k] for f in q_.facility_list if k < len(f.cost_list)]
                    if len(fs) == len(q_.facility_list) and abs(q_.cost_list[k] - sum(fs)) > 1e-9 and bad is None:
                        bad = "after insert_absence_time_list(%s) on %s: workplace %s cost %r at step %d, its facilities sum to %r" % (L, target, q_.name, q_.cost_list[k], k, sum(fs))
            if target == "organization":
                for k in range(len(org.cost_list)):
                    parts = [x.cost_list[k] for x in list(org.team_list) + list(org.workplace_list) if k < len(x.cost_list)]
                    if len(parts) == len(org.team_list) + len(org.workplace_list) and abs(org.cost_list[k] - sum(parts)) > 1e-9 and bad is None:
                        bad = "after insert_absence_time_list(%s) on the organization: organization cost %r at step %d, teams and workplaces sum to %r" % (L, org.cost_list[k], k, sum(parts))
        except Exception as e:
            cnt["exceptions"] += 1
            ctx.violations.append(dict(property=ctx.pid, what="class-level insert raised %s: %s" % (type(e).__name__, e), case=case))
            continue
        cnt["cases"] += 1
        if bad:
            cnt["violations"] += 1
            ctx.violations.append(dict(property=ctx.pid, what=bad, case=case))
    _finish(ctx, "cost_sums_after_class_inserts", cnt, "insert_absence_time_list called directly on the organization or on its teams and workplaces with distinct indices in any order (real code only): every level's cost entry is still the sum of the level below at every step")


# ---- C18: class-level edits with repeated indices ------------------------------------------------------------------

def _org_lengths(project):
    org = project.organization
    out = {"organization": len(org.cost_list)}
    for t_ in org.team_list:
        out["team " + t_.name] = len(t_.cost_list)
        for w in t_.worker_list:
            out["worker %s cost" % w.name] = len(w.cost_list)
            out["worker %s state" % w.name] = len(w.state_record_list)
            out["worker %s tasks" % w.name] = len(w.assigned_task_id_record)
    for q_ in org.workplace_list:
        out["workplace " + q_.name] = len(q_.cost_list)
        for f in q_.facility_list:
            out["facility %s cost" % f.name] = len(f.cost_list)
            out["facility %s state" % f.name] = len(f.state_record_list)
            out["facility %s tasks" % f.name] = len(f.assigned_task_id_record)
    return out


def run_class_level_edits(ctx, n):
    cnt = dict(cases=0, violations=0, exceptions=0)
    for i in range(n):
        rng, spec, params = _case(ctx.seed, i, 79)
        case = dict(stream="class-level-edits", seed=ctx.seed, index=i, spec=spec, params=dict(params, maxTime=40))
        try:
            project = build(spec)
            real_simulate(project, dict(params, maxTime=40, absence=[]))
            T = project.time
            if T < 2:
                continue
            L = [rng.randrange(0, T) for _ in range(rng.randint(1, 3))]
            L = L + [rng.choice(L)]                      # an index named twice
            ops = []
            bad = None
            for op in (rng.choice(["insert", "remove"]), rng.choice(["insert", "remove"])):
                ops.append((op, L))
                for part in (project.organization, project.workflow, project.product):
                    getattr(part, op + "_absence_time_list")(list(L))
                lens = _org_lengths(project)
                wf = {"task %s %s" % (t.name, k_): len(v) for t in project.workflow.task_list
                      for k_, v in (("state", t.state_record_list), ("rem", t.remaining_work_amount_record_list),
                                    ("workers", t.allocated_worker_id_record), ("facilities", t.allocated_facility_id_record))}
                pr = {"component %s %s" % (c.name, k_): len(v) for c in project.product.component_list
                      for k_, v in (("state", c.state_record_list), ("placed", c.placed_workplace_id_record))}
                lens.update(wf)
                lens.update(pr)
                if len(set(lens.values())) > 1 and bad is None:
                    lo = min(lens.values())
                    odd = sorted(k_ for k_, v in lens.items() if v != max(lens.values()))[:4]
                    bad = "after %s with indices %s on organization, workflow and product: logs of different lengths (%d..%d; shorter: %s)" % (
                        ops, L, lo, max(lens.values()), odd)
        except Exception as e:
            cnt["exceptions"] += 1
            ctx.violations.append(dict(property=ctx.pid, what="class-level remove/insert raised %s: %s" % (type(e).__name__, e), case=case))
            continue
        cnt["cases"] += 1
        if bad:
            cnt["violations"] += 1
            ctx.violations.append(dict(property=ctx.pid, what=bad, case=case))
    _finish(ctx, "class_level_edits", cnt, "remove/insert_absence_time_list called directly on organization, workflow and product with a repeated index (real code only): every log keeps the same length")


# ---- C13: placement logs after inserting absence steps -----------------------------------------------------------------

def run_placement_logs_after_insert(ctx, n):
    cnt = dict(cases=0, violations=0, exceptions=0)
    for i in range(n):
        rng, spec, params = _case(ctx.seed, i, 83)
        case = dict(stream="placement-after-insert", seed=ctx.seed, index=i, spec=spec, params=dict(params, maxTime=40))
        try:
            project = build(spec)
            ix = Index(project)
            real_simulate(project, dict(params, maxTime=40))
            T = project.time
            if T < 2 or not ix.comps or not ix.wps:
                continue
            # the steps at which something finishes or moves are the interesting ones
            hot = sorted(set(k for c in ix.comps for k in range(1, len(c.state_record_list))
                             if c.state_record_list[k] != c.state_record_list[k - 1]))
            L = sorted(set(rng.choice(hot or [1]) for _ in range(rng.randint(1, 2))))
            if rng.random() < 0.4:
                L = sorted(set(L + [0]))              # a non-working step before the first recorded one
            base = snapshot(project, ix)
            project.insert_absence_time_list(list(L))
            st = snapshot(project, ix)
        except Exception as e:
            cnt["exceptions"] += 1
            ctx.violations.append(dict(property=ctx.pid, what="insert_absence_time_list raised %s: %s" % (type(e).__name__, e), case=case))
            continue
        cnt["cases"] += 1

        def consistent(s_):
            for c in range(len(ix.comps)):
                for k, q in enumerate(s_["cPlaced"][c]):
                    for p_ in range(len(ix.wps)):
                        if k < len(s_["wpPlaced"][p_]):
                            listed = c in (s_["wpPlaced"][p_][k] or [])
                            if listed != (q == p_):
                                return "step %d: workplace %d %s component %d, the component reports %r" % (k, p_, "lists" if listed else "does not list", c, q)
            return None
        if consistent(base) is None:
            bad = consistent(st)
            if bad:
                cnt["violations"] += 1
                ctx.violations.append(dict(property=ctx.pid, what="after insert_absence_time_list(%s) the placement logs disagree: %s" % (L, bad), case=case))
    _finish(ctx, "placement_after_insert", cnt, "two-way consistency of the placement logs after inserting absence steps where components change state (real code only)")


# ---- C16: non-finite values through JSON -----------------------------------------------------------------------------------

def run_nonfinite_json(ctx, n):
    cnt = dict(cases=0, violations=0, exceptions=0)
    for i in range(n):
        rng, spec, params = _case(ctx.seed, i, 89)
        if not spec.get("workplaces"):
            continue
        spec = json.loads(json.dumps(spec))
        case = dict(stream="nonfinite-json", seed=ctx.seed, index=i, spec=spec, params=dict(params, maxTime=3), note="first workplace unbounded (max_space_size = inf)")
        try:
            project = build(spec, plain=True)
            project.organization.workplace_list[0].max_space_size = float("inf")     # an unbounded workplace
            real_simulate(project, dict(params, maxTime=3))
            with tempfile.TemporaryDirectory() as d:
                path = os.path.join(d, "p.json")
                project.write_simple_json(path)
                q = BaseProject()
                q.read_simple_json(path)
                p2 = os.path.join(d, "q.json")
                q.write_simple_json(p2)
                same = json.load(open(path)) == json.load(open(p2))
            cap = q.organization.workplace_list[0].max_space_size
        except Exception as e:
            cnt["exceptions"] += 1
            ctx.violations.append(dict(property=ctx.pid, what="saving / loading a project with an unbounded workplace raised %s: %s" % (type(e).__name__, e), case=case))
            continue
        cnt["cases"] += 1
        if cap != float("inf") or not same:
            cnt["violations"] += 1
            ctx.violations.append(dict(property=ctx.pid, what="unbounded workplace: loaded capacity %r, write-read-write equal: %s" % (cap, same), case=case))
    _finish(ctx, "nonfinite_json", cnt, "projects with an unbounded workplace (max_space_size = inf) written, read and written again (real code only)")
