"""The simulation stream: random models → real run with observer → lockstep against the
Lean model phase by phase + whole-run comparison + property predicates on the real trace.
Runs in a process pool; every case is derived from (seed, index) only."""
from env import *  # noqa: F401,F403
import hashlib
import json
import os
import random
import time
from concurrent.futures import ProcessPoolExecutor, wait

import codec
import gen
import preds
from driver import Driver
from lockstep import run_real, lockstep, free_run
from real import snapshot, Unsupported

_DRV = None
MIXED_SAFE = {"C03", "C07", "C14"}
RESUME_SAFE = {"C10"}      # a pure continuation (both flags off): the clock and every log go on, index = time


def _drv():
    global _DRV
    if _DRV is None:
        _DRV = Driver()
    return _DRV


def case_rng(seed, i):
    return random.Random(seed * 1000003 + i * 7919 + 17)


def make_case(seed, i, profile):
    if profile == "exh":
        return gen.exh_spec(i)
    rng = case_rng(seed, i)
    if profile == "decimal":
        # work amounts, progress and skills off the dyadic grid (0.1, 0.3, 0.7 ...): float residues appear; real runs
        # only (the model is exact), predicates in tolerance mode
        spec = gen.gen_spec(rng, "full")
        for tk in spec["tasks"]:
            tk["work"] = rng.choice([0.1, 0.3, 0.7, 1.0, 1.1, 2.3, 10.0])
            tk["prog"] = rng.choice([0.0, 0.0, 0.7, 0.3, 0.1])
            if tk.get("auto"):
                tk["auto_rate"] = rng.choice([0.1, 0.3, 1.0])
        for tm in spec["teams"]:
            for w in tm["workers"]:
                w["skills"] = {k: (rng.choice([0.1, 0.3, 0.7, 0.9, 1.0]) if v else v) for k, v in w["skills"].items()}
        for q in spec.get("workplaces", []):
            for f in q["facilities"]:
                f["skills"] = {k: (rng.choice([0.1, 0.3, 0.7, 1.0]) if v else v) for k, v in f["skills"].items()}
        fam = rng.choice([[0.3335], [0.5002], [0.3335, 0.5, 0.7, 1.0]])   # sizes that miss a capacity by a hair
        for c in spec.get("components", []):
            c["size"] = rng.choice(fam)
        for q in spec.get("workplaces", []):
            q["cap"] = rng.choice([1.0, 1.0, 2.0])
        spec["decimal"] = True
        p = gen.gen_params(rng, spec)
        p.pop("warmup", None)
        p["initState"] = p["initLog"] = True
        if rng.random() < 0.5:
            p["errorTol"] = 1e-3       # a caller's (larger) numerical tolerance for "no work left"
        return spec, dict(p, maxTime=60)
    if profile == "rerun":
        # every case is observed on a USED object: half of them after a backward simulation with the due times
        # of the tail tasks taken into account (helper tasks are added and removed again)
        spec = gen.gen_spec(rng, "full")
        params = gen.gen_params(rng, spec)
        wu = params.get("warmup") or dict(rule=rng.randrange(9), autoFlag=False, maxTime=rng.choice([3, 40]), absence=[], edit_absence=False)
        if rng.random() < 0.5:
            wu.update(backward=True, due=True)
        params["warmup"] = wu
        params["initState"] = params["initLog"] = True
        return spec, params
    if profile == "nested":
        spec = gen.gen_nested(rng)
        return spec, dict(gen.gen_params(rng, spec), maxTime=40)
    spec = gen.gen_spec(rng, profile)
    params = gen.gen_params(rng, spec)
    return spec, params


def fingerprint(spec, params):
    return hashlib.sha1(json.dumps([spec, params], sort_keys=True).encode()).hexdigest()[:16]


def evaluate(spec, params, prop_ids, want_lockstep=True):
    """run one case on the real code and the model; returns a JSON-able result dict"""
    res = dict(fp=fingerprint(spec, params), dis=[], viol=[], exc=None, steps=0, stats={}, feats={})
    try:
        project, ix, model, pre, snaps, exc = run_real(spec, params)
        if spec.get("decimal"):
            model["decimal"] = True
        final = snapshot(project, ix)
    except Unsupported as e:
        # the real objects are in a state the model cannot even represent (e.g. a resource that lists a task of
        # another project): no correspondence for this case — reported as a disagreement in every field
        res["dis"].append(dict(phase="exception", fields=["*"], time=None, detail="state outside the model: %s" % e))
        res["exc"] = "Unsupported: %s" % e
        return res
    res["steps"] = sum(1 for b, _ in snaps if b == "recorded")
    res["exc"] = None if exc is None else "%s: %s" % (type(exc).__name__, exc)
    run = dict(pre=pre, snaps=snaps, final=final, exc=res["exc"])
    # features for the distribution report
    fe = res["feats"]
    fe["alloc"] = any(any(st["allocW"]) for b, st in snaps if b == "allocated")
    fe["facility_pairs"] = any(any(st["allocF"]) for b, st in snaps if b == "allocated")
    fe["moves"] = sum(1 for (b1, s1), (b2, s2) in zip(snaps, snaps[1:]) if b2 == "allocated" and s1["placed"] != s2["placed"])
    fe["absence_steps"] = sum(1 for b, st in snaps if b == "absence" and st["time"] in params["absence"])
    fe["status"] = final["status"]
    fe["used_object"] = bool(params.get("warmup"))
    fe["deps"] = sorted(set(d for tk in model["tasks"] for _, d in tk["inputs"]))
    fe["ind_absence"] = any(w["absence"] for w in model["workers"]) or any(f["absence"] for f in model["facs"])
    fe["contention"] = any(
        sum(1 for t in range(model["nT"]) if st["tstate"][t] in (1, 2)) > sum(1 for w in st["wstate"] if w == 0) > 0
        for b, st in snaps if b == "absence")
    if exc is not None:
        res["dis"].append(dict(phase="exception", fields=["*"], time=None, detail=res["exc"]))
    if want_lockstep:
        drv = _drv()
        st = {}
        for d in lockstep(drv, model, params, pre, snaps, st):
            res["dis"].append(dict(phase=d["phase"], boundary=d["boundary"], fields=d["fields"], time=d["time"]))
        res["stats"] = st
        # whole-run comparison validates the loop skeleton (exit tests, gating, phase order); when a
        # phase already disagrees, downstream divergence of the free run carries no information
        if exc is None and not res["dis"]:
            f, _ = free_run(drv, model, params, pre, final)
            if f:
                res["dis"].append(dict(phase="free-run", fields=f, time=None))
    if "C05" in prop_ids and exc is None and final["status"] == 2 and not spec.get("decimal"):
        # the real run did not complete: what does the reference semantics (the validated model) do
        # from the same start?  (consulted by the liveness search of C05 only)
        try:
            _, ans = free_run(_drv(), model, params, pre, final)
            run["model_final"] = dict(status=ans["status"], time=ans["time"])
        except Exception as e:
            run["model_final"] = dict(error=repr(e))
    # predicates index the logs by the step number of THIS run; when the observed run keeps the logs or the
    # clock of an earlier one only the predicates written for that are evaluated (the lockstep covers the rest)
    mixed = not (params.get("initState", True) and params.get("initLog", True))
    for pid in prop_ids:
        fpred = preds.PREDS.get(pid)
        resumed = params.get("initState", True) is False and params.get("initLog", True) is False
        if fpred is None or (mixed and pid not in MIXED_SAFE and not (resumed and pid in RESUME_SAFE)):
            continue
        try:
            vs = fpred(model, params, run)
        except Exception as e:  # a predicate crash is an infrastructure failure, surfaced as such
            vs = [dict(property=pid, what="PREDICATE-CRASH %s: %s" % (type(e).__name__, e))]
        res["viol"].extend(vs[:3])
    return res


def _work(args):
    seed, idxs, profile, prop_ids, want_lockstep = args
    out = []
    for i in idxs:
        spec, params = make_case(seed, i, profile)
        try:
            r = evaluate(spec, params, prop_ids, want_lockstep)
        except Exception as e:
            import traceback
            r = dict(fp="?", dis=[], viol=[], exc=None, steps=0, stats={}, feats={},
                     infra="%s: %s\n%s" % (type(e).__name__, e, traceback.format_exc()[-800:]))
        r["index"] = i
        out.append(r)
    return out


def run_stream(seed, n, profile, prop_ids, want_lockstep=True, workers=None, start=0):
    workers = workers or min(16, os.cpu_count() or 4)
    chunks = [list(range(start + k, start + n, workers)) for k in range(workers)]
    chunks = [c for c in chunks if c]
    jobs = [(seed, c, profile, prop_ids, want_lockstep) for c in chunks]
    # Watchdog: a worker that never answers (a fork taken while another thread of this process held a lock —
    # seen once in about a thousand runs on a loaded machine —, or real code that does not terminate on some
    # input) must not hang the check.  Chunks that are not back in time are abandoned with their processes and
    # tried once more in a fresh pool; what is still missing then is reported case by case as an
    # infrastructure failure of those cases ("infra"), which the caller turns into a verdict by its rules.
    limit = float(os.environ.get("VERIF_POOL_LIMIT", 300 + 3.0 * max(len(c) for c in chunks)))

    def attempt(todo):
        out, left = [], []
        ex = ProcessPoolExecutor(max_workers=len(todo))
        pending = ()
        try:
            futs = [ex.submit(_work, j_) for j_ in todo]
            done, pending = wait(futs, timeout=limit)
            for f, j_ in zip(futs, todo):
                if f in done:
                    try:
                        out.extend(f.result())
                    except Exception as e:   # a worker died
                        out.extend(dict(fp="?", dis=[], viol=[], exc=None, steps=0, stats={}, feats={}, index=i_,
                                        infra="worker process failed: %r" % e) for i_ in j_[1])
                else:
                    left.append(j_)
            if pending:
                for proc in list(getattr(ex, "_processes", {}).values()):
                    try:
                        proc.kill()
                    except Exception:
                        pass
        finally:
            ex.shutdown(wait=not pending, cancel_futures=True)   # the normal path joins the pool before the next one forks
        return out, left

    results, left = attempt(jobs)
    if left:
        more, left = attempt(left)
        results.extend(more)
    for j_ in left:
        results.extend(dict(fp="?", dis=[], viol=[], exc=None, steps=0, stats={}, feats={}, index=i_,
                            infra="no answer from the worker process within %d s (twice)" % limit) for i_ in j_[1])
    results.sort(key=lambda r: r["index"])
    return results
