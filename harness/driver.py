"""Subprocess wrapper around the Lean model driver (line protocol)."""
import os
import subprocess

VERIF = os.path.dirname(os.path.dirname(os.path.abspath(__file__)))
LEAN_DIR = os.path.join(VERIF, "lean")


class DriverError(Exception):
    pass


def driver_cmd():
    exe = os.path.join(LEAN_DIR, ".lake", "build", "bin", "driver")
    if os.path.exists(exe) and os.environ.get("VERIF_DRIVER", "exe") == "exe":
        return [exe]
    return ["lake", "env", "lean", "--run", "Driver.lean"]


class Driver:
    def __init__(self):
        self.p = subprocess.Popen(driver_cmd(), cwd=LEAN_DIR, stdin=subprocess.PIPE,
                                  stdout=subprocess.PIPE, text=True, bufsize=1 << 20)
        self.calls = 0

    def ask(self, toks):
        line = " ".join(toks)
        self.p.stdin.write(line + "\n")
        self.p.stdin.flush()
        ans = self.p.stdout.readline()
        self.calls += 1
        if not ans:
            raise DriverError("driver died (request %s…)" % line[:80])
        ans = ans.strip()
        if ans.startswith("bad-op"):
            raise DriverError(ans + " :: " + line[:200])
        return ans

    def close(self):
        try:
            self.p.stdin.close()
            self.p.wait(timeout=10)
        except Exception:
            self.p.kill()

    def __enter__(self):
        return self

    def __exit__(self, *a):
        self.close()
