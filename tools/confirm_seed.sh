#!/bin/bash
# usage: confirm_seed.sh <worktree> <seed-id> <property>  — confirms a seeded change and files it under /verif/seeded/<seed-id>
wt=$1; sid=$2; prop=$3
cd "$wt" || exit 2
git diff -- pDESy > /tmp/confirm_$sid.patch
[ -s /tmp/confirm_$sid.patch ] || { echo "no change in $wt"; exit 2; }
t=$(cd "$wt" && /venv/bin/python -m pytest -q -p no:cacheprovider --timeout=900 2>&1 | tail -1)
echo "tests with change: $t"
PYTHONPATH=$wt /venv/bin/python demo.py > /tmp/confirm_$sid.with 2>&1; w=$?
git apply -R /tmp/confirm_$sid.patch
PYTHONPATH=$wt /venv/bin/python demo.py > /tmp/confirm_$sid.without 2>&1; wo=$?
git apply /tmp/confirm_$sid.patch
echo "demo with change: exit $w ; without: exit $wo"
case "$t" in *"176 passed"*) ;; *) echo "NOT CONFIRMED (tests)"; exit 1;; esac
if [ $w -ne 1 ] || [ $wo -ne 0 ]; then echo "NOT CONFIRMED (demo)"; exit 1; fi
d=/verif/seeded/$sid; mkdir -p $d
cp /tmp/confirm_$sid.patch $d/patch.diff; cp demo.py $d/demo.py; [ -f NOTES.md ] && cp NOTES.md $d/NOTES.md
tail -3 /tmp/confirm_$sid.with > $d/demo_with_change.txt
cat > $d/meta.json <<EOM
{"id": "$sid", "property": "$prop", "confirmed": {"tests_with_change": "$t", "demo_exit_with_change": $w, "demo_exit_without_change": $wo,
 "how": "tools/confirm_seed.sh in a scratch worktree of /repo at $(git -C /repo rev-parse --short HEAD): pytest with the change, demo.py with the change and with the patch reversed"}}
EOM
echo CONFIRMED $sid
