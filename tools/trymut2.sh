#!/bin/bash
# usage: trymut2.sh <patch> <prop> [<prop> ...]  — like trymut.sh but against a scratch worktree of /repo's HEAD
# (PDESY_REPO) with evidence/replays written to a scratch directory (VERIF_OUT): /repo and /verif/evidence stay untouched
set -u
patch=$1; shift
wt=$(mktemp -d /tmp/mutrepo.XXXXXX); rmdir $wt
git -C /repo worktree add --detach $wt HEAD >/dev/null 2>&1 || exit 2
git -C $wt apply "$patch" || { echo "patch does not apply"; git -C /repo worktree remove --force $wt; exit 2; }
out=$(mktemp -d /tmp/mutout.XXXXXX)
cd /verif
for p in "$@"; do
  VERIF_OUT=$out PDESY_REPO=$wt /venv/bin/python harness/check.py "$p" --tier quick 2>&1 | grep -v "^WARNING conda\|^KNOWN-FINDING" | tail -2 | cut -c1-240
  echo "   -> exit ${PIPESTATUS[0]}  (replay, if any: $out/replays)"
done
git -C /repo worktree remove --force $wt; git -C /repo worktree prune
