#!/bin/bash
# usage: trymut.sh <patch> <prop> [<prop> ...]   — apply a patch to /repo, run quick checks, restore /repo
set -u
patch=$1; shift
cd /repo || exit 2
if [ -n "$(git status --porcelain)" ]; then echo "/repo not clean"; exit 2; fi
git apply "$patch" || { echo "patch does not apply"; exit 2; }
cd /verif
for p in "$@"; do
  /venv/bin/python harness/check.py "$p" --tier quick 2>&1 | grep -v "^WARNING conda" | tail -3
  echo "   -> exit $?"
done
cd /repo && git checkout -- . && git status --porcelain
