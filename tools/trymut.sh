#!/bin/bash
# usage: trymut.sh <patch> <prop> [<prop> ...]   — apply a patch to /repo, run quick checks, restore /repo
# (evidence files written while /repo is patched are NOT evidence: they are put back afterwards)
set -u
patch=$1; shift
cd /repo || exit 2
if [ -n "$(git status --porcelain)" ]; then echo "/repo not clean"; exit 2; fi
git apply "$patch" || { echo "patch does not apply"; exit 2; }
cd /verif
keep=$(mktemp -d /tmp/trymut.XXXXXX)
for p in "$@"; do
  [ -f evidence/$p.json ] && cp evidence/$p.json $keep/$p.json
  /venv/bin/python harness/check.py "$p" --tier quick 2>&1 | grep -v "^WARNING conda" | tail -3
  echo "   -> exit ${PIPESTATUS[0]}"
  [ -f $keep/$p.json ] && cp $keep/$p.json evidence/$p.json
done
rm -rf $keep
cd /repo && git checkout -- . && git status --porcelain
