#!/usr/bin/env python3
"""Regenerates /verif/MANIFEST.json from the table below (run after changing claims)."""
import json
import os

VERIF = os.path.dirname(os.path.dirname(os.path.abspath(__file__)))
props = [json.loads(l) for l in open(os.path.join(VERIF, "properties.jsonl"))]
obl = json.load(open(os.path.join(VERIF, "lean", "obligations.json")))

NOTE = ("Trusted: Lean 4.33 kernel; axioms of every listed theorem ⊆ {propext, Classical.choice, Quot.sound} (audited each run; no "
        "native_decide/bv_decide/sorry/own axioms). The hand-written Lean model (lean/PDesy/Model) is tied to /repo by a correspondence "
        "check on sampled inputs only (phase-level lockstep through the PDESY_VERIF observer, whole-run comparison, pure-function "
        "streams): that sampling, the snapshot/codec glue and CPython semantics are trusted; float rounding, tolerances, exceptions, "
        "object identity and file I/O are modelled away (exact rationals on a dyadic grid, explicit iteration orders).")

CLAIMS = {
    "C20": dict(text="Proved for the model: configuring from a result that is not SUCCESS is refused and leaves the task unchanged; from a SUCCESS result the work "
                     "amount is the duration (minus the distinct absence steps below the run length when asked) and the rate is parent unit / sub unit "
                     "(C20_refused, C20_configured, C20_duration_remove, C20_rate); an automatic component-free task with work D > 0 and rate r that becomes "
                     "READY is WORKING from the end of that very iteration if it is an active step (else from the first active step on: nothing starts "
                     "at a project absence step), loses r per active step, stays WORKING unchanged through inactive (project absence) steps, is WORKING at exactly the recorded steps up to the n-th active one with n = ceil(D/r), FINISHED from the next, and "
                     "never holds a worker (C20_starts, C20_working, C20_occupation, C20_occupation_ends, C20_log, C20_no_worker, C20_steps). "
                     "Exact for unit ratios that are powers of two (float division otherwise not modelled); duration 0 is the kept finding F27.",
                design="6 C20", technique="Lean 4 proof (iteration-level recurrence for automatic tasks, ceiling arithmetic on Rat) + real sub-project files, setter and parent-run correspondence"),
    "C16": dict(text="Proved for the persistence model (write/read as relabelling between object references and ID labels, first match on load): "
                     "export never fails (C16_export_total); with unique IDs per kind and in-range references, import(export(x)) = x for the whole model "
                     "and state (C16_import_export), so the loaded project re-simulates identically (C16_resimulate); whatever loads re-exports to the same "
                     "file, with no hypothesis (C16_reexport), and all its references resolve inside the restored project (C16_refs_resolve); uniqueness is "
                     "necessary (machine-checked counterexample). The model's export/import are executed against every real file of the stream (EXP/IMP). "
                     "JSON text, file I/O, float formatting and the constructor coercions are glue covered by the stream only (write-read-write equality, "
                     "reference identity, re-simulation, constructor-parameter inspection) — partial by nature.",
                design="6 C16", technique="Lean 4 round-trip proof on a relabelling model of save/load + execution of that model against the real JSON files"),
    "C17": dict(text="Proved for the model: the structure after the `finally` block equals the original — every task's and workplace's dependency lists, "
                     "element for element, and no helper task left — for every model with in-range links and both settings of the due-time option "
                     "(C17_restored, C17_restored_eq); the block depends on the static structure only, which is why an exception at any step of the inner run "
                     "cannot prevent it (validated on the real code by injecting an exception at observer calls). Logs stay aligned after a backward run from any aligned state, any flags, any due option (C17_aligned_general); helper tasks are new objects and start from constructor values (bwdStart_helper_slots), which does not matter when both initialisation flags are set (C17_backward_eq_old); in "
                     "the reversed logs of a run every WORKING index of an FS predecessor is below every WORKING index of its successor "
                     "(C17_reversed_order; link read from the predecessor's successor list, or from the successor's predecessor list under EdgeSym). "
                     "'A later forward simulate gives the same result' follows from C09_resim.",
                design="6 C17", technique="Lean 4 proof (reverse/append/filter algebra on the dependency lists; C01 + C08 on the reversed graph) + backward histories with exception injection on the real code"),
    "C18": dict(text="Proved for the model, for every list of indices (0, duplicates, already present, beyond the end) and any sequence of calls: "
                     "remove/insert/reverse preserve alignment of all 17 logs with project.time (C18_remove_aligned, C18_insert_aligned, C18_sequence), "
                     "every log changes by the same number of entries (C18_*_amount), inserted entries are zero-cost, no-work copies of their predecessor "
                     "(C18_inserted_values, C18_inserted_states) and inserting into an absence-free result then removing is the identity on the whole "
                     "state (C18_insert_remove). 'Complete without error' is by totality of the model plus the real-code stream.",
                design="6 C18", technique="Lean 4 proof (list insert/erase algebra with growing guards) + remove/insert histories on the real code mirrored in the model"),
    "C06": dict(text="Proved for the model: at every `updated` state no task is NONE with its start gate open and no task is WORKING with no work left and "
                     "its finish gate open (C06_ready_run, C06_finish_run, C06_finish_next); after check_state(WORKING) no component-free automatic task is "
                     "READY, at every recorded working step (and at absence steps when automatic tasks are performed there) (C06_auto_run); idle-worker clause for tasks without facility: a worker still FREE and unassigned after "
                     "the allocation pass cannot be added to any READY/WORKING non-automatic task it is skilled and targeted for (C06_idle, C06_idle_step, "
                     "C06_idle_run); the worker-facility-pair form for facility tasks of single-task components: a FREE unassigned worker and a FREE facility of "
                     "the workplace where the component sits after the pass cannot be added as a pair (C06_idle_pair, C06_idle_pair_step, C06_idle_pair_run; "
                     "the single-task hypothesis is necessary: machine-checked counterexample with two tasks on one component); and a READY single-task component "
                     "that is still unplaced after a pass in which nothing moved could not enter any workplace of its task (C06_unplaced, C06_unplaced_step_obs, "
                     "C06_unplaced_run; 'nothing moved' is necessary: machine-checked run where a later task frees the workplace).",
                design="6 C06", technique="Lean 4 proof (post-conditions of the update block, fold argument over the allocation pass: refusals persist) + phase-level correspondence"),
    "C09": dict(text="Proved for the model: with both initialisation flags the entered state, hence the whole result, does not depend on the previous "
                     "state of the project at all — re-simulation, any earlier history of operations, or a fresh object give the same result "
                     "(C09_enter_indep, C09_resim, C09_resim_twice, C09_history_indep, C09_function). Independence of the iteration order of the internal "
                     "sets: check_state(FINISHED) under the allocation invariant, check_state(WORKING) and check_removing_placed_workplace for every "
                     "state, and the PERT update on finish-to-start networks give the same state for every visiting order, hence whole runs do "
                     "(C09_order_finished/working/remove/pert_fs, C09_simulate_order, C09_simulate_order_fs). On SS/FF/SF networks the wave PERT is "
                     "genuinely order-dependent (machine-checked example C09_order_pert_ff_counterexample): the real code iterated sets there and its "
                     "logs depended on task hashes — found by search, repaired in /repo (waves now follow task_list order, which is exactly the "
                     "model's canonical order, so C09_simulate_order covers every network), witnesses replayed on every run. The address/hash/process clause is inherently about the runtime and is validated by "
                     "the stream (permuted task/component hashes, rebuilt objects, fresh processes with different PYTHONHASHSEED) — partial by nature.",
                design="6 C09", technique="Lean 4 proof that initialisation overwrites every dynamic field (determinism) + real runs under permuted set-iteration orders and hash seeds"),
    "C15": dict(text="Proved for the model (C15_general): pausing at ANY k <= M and resuming with both initialisation flags off gives exactly the state of "
                     "the uninterrupted run (whole-state equality: logs, costs, time, status, live state) for EVERY model with in-range links and an "
                     "acyclic link graph (FwdRanked; decidable form TopoOK), any link kinds, any start state and parameters. Rests on idempotence of the "
                     "update block: check_state(FINISHED) is a fixpoint, component/removal/ready checks are idempotent, and update_PERT_data is idempotent "
                     "at every state of an acyclic model although it can read a stale eft (machine-checked example): the relaxation sequence is "
                     "value-independent and every last write reads final values (C15_pert_idem_general). C15_partial (GateOK) covers the remaining "
                     "cyclic-link models without the FF/SF+FS pattern; cyclic link graphs are outside the property (PERT does not terminate there in the "
                     "code). The JSON variant is covered by the stream (write/read/resume) and C16.",
                design="6 C15", technique="Lean 4 proof (idempotence of the update block incl. the wave PERT on acyclic graphs, loop congruences) + pause/resume histories on the real code at every k"),
    "C02": dict(text="Proved for the model: perform subtracts exactly contrib from a WORKING task on an active step and leaves every other task alone (C02_perform); "
                     "under the allocation invariant contrib is the documented plain sum (divisor 1; an absent or unskilled member contributes 0: C02_contrib, "
                     "C02_contrib_zero); no other phase changes remaining work except check_finished clamping finished tasks to 0 (C02_frame, C02_chkFinished_rem); "
                     "a task finishes iff it was WORKING with remaining <= 0 and its finish gate holds in the resulting state — never earlier, and always then "
                     "(C02_finish_iff, closure by the counting argument); step/run/log-level recurrences (C02_iteration, C02_run_log, C02_run_finished_zero). "
                     "Exact on the dyadic grid; float rounding is not modelled.",
                design="6 C02", technique="Lean 4 proof (frame lemmas, fixpoint of the finish closure, log/trace bridge) + phase-level correspondence"),
    "C03": dict(text="Proved for the model: AllocInv (two-way consistency, at most one task per worker/facility, no duplicates, only READY/WORKING tasks hold) and "
                     "HoldWorking hold at every updated and ticked state, ResInv (state = ABSENCE if absent else WORKING iff assigned) at every ticked state "
                     "(C03_trace, C03_updated, C03_run, C03_final), also when a used project is simulated again (C03_rerun'); finished tasks hold nothing and their "
                     "workers are detached (C03_released, C03_chkFinished_released). Two per-phase statements are false without their natural context "
                     "and are proved in the `_partial` form with machine-checked counterexamples (allocate needs FREE => unassigned; check_state(WORKING) "
                     "needs that a holder has a worker).",
                design="6 C03", technique="Lean 4 invariant proof (fold invariant of the allocation loop with the free-worker list) + phase-level correspondence"),
    "C04": dict(text="Proved for the model: EligInv (every held worker has positive skill, a targeting team, is in the fixed list; solo members alone; "
                     "worker/facility pairs by position with facility skill, targeting workplace, fixed list and operating skill; automatic tasks hold "
                     "nothing) is preserved by every phase and holds at every state of every run (C04_trace, C04_run); a newly added worker was FREE, "
                     "not absent and unassigned at that moment (C04_added, C04_added_present, C04_moment); allocate only appends (C04_prefix).",
                design="6 C04", technique="Lean 4 invariant proof over the allocation folds (can_add_resources branch by branch) + phase-level correspondence"),
    "C05": dict(text="Safety proved for the model: simulate returns, its fuel is never the reason to stop (C05_fuel), status SUCCESS iff all tasks "
                     "FINISHED, FAILURE only at time >= max_time, no step at or beyond max_time (C05_status, C05_run_time), and a non-automatic unfinished "
                     "task without any eligible worker prevents SUCCESS (C05_unservable). Liveness proved for fragment L (C05_live_partial, "
                     "C05_live_shared, C05_live_dedicated): no facility tasks, automatic tasks without component and with positive rate, FS/SS links "
                     "only on an acyclic in-range graph, every non-automatic task has an eligible worker (workers may be shared, solo, individually "
                     "absent): if max_time >= |project absences| + |individual absences| + sum over tasks of (3 + ceil(rem0/delta)) the run ends in "
                     "SUCCESS within that bound (decreasing-measure argument, C05_live_measure). All four link kinds (C05_live_gates, C05_live_gates_dedicated, "
                     "C05_live_gates_general; fragment LG): the same bound holds with FF/SF links when the worker relied upon for a task is eligible for no OTHER "
                     "task that has an FF/SF input — in particular when the tasks at FF/SF links have workers of their own, the property's premise; the clause "
                     "is necessary (C05_live_gates_counterexample_shared: a gated task with an own worker still starves its predecessor by also taking the "
                     "predecessor's only worker; replayed on the code). Outside LG — facility/component placement, automatic tasks in components — liveness "
                     "is checked by search only (explicit feasibility test and bound; for facility models differentially against the validated model).",
                design="6 C05", technique="Lean 4 proof of the loop skeleton and of the unservable-task invariant + whole-run correspondence (status, time)"),
    "C10": dict(text="Proved for the model. Clauses 1-2: at a project absence step nothing is allocated, non-automatic tasks keep their remaining work, "
                     "automatic ones progress iff the flag is set, every resource is logged ABSENCE and every cost entry is 0 (C10_absence_step, "
                     "C10_absence_step_idle, C10_absence_live, C10_run_absence_entry, C10_run_absence_rem); an individually absent resource is ABSENCE, "
                     "contributes 0 and costs 0 (C10_individual_worker/fac). Clause 3 (C10_removal): for a model without individual absences and without "
                     "automatic tasks in components, flag off, every absence list (empty, runs, duplicates, beyond the end): if the run with absences "
                     "ends in SUCCESS, remove_absence_time_list of its result has exactly the logs, time and status of the absence-free run (simulation "
                     "relation between the two runs, PERT shift lemmas, log-row lemmas). C10_removal_tslack_general: this holds for every rule except FIFO "
                     "(kept finding F16: FIFO counts READY log entries, which absence steps inflate), with TSLACK on every consistent acyclic network of any "
                     "link kinds: lst/lft shift with cpl by one constant for all tasks, so slacks change by a constant and the order is the same "
                     "(C10_slack_shift_general; exact slack equality is false: C10_slack_shift_general_false). Two repairs of /repo were needed and found "
                     "by this proof work: c33e3f4 (check_state(WORKING) ran at absence steps) and dd6cdec (backward PERT pass read a negative lft as 'unset'; "
                     "first a machine-checked counterexample, then replayed on the code); witnesses in corpus/c10_removal.json.",
                design="6 C10", technique="Lean 4 proof (working-gating of the step; simulation relation between the run with and without absence) + correspondence on absence, cost, perform, record phases + removal histories"),
    "C13": dict(text="Proved for the model on flat products (PlaceWF: no parent/child links, sizes and capacities >= 0, task/component links and "
                     "facility/workplace links consistent): PlaceInv (component listed exactly where it reports being placed, at most one workplace, "
                     "capacity never exceeded, facilities of a task belong to the workplace where its component is) at every state of every run "
                     "(C13_trace, C13_run); a component moves at most once per pass, never while a task of it is WORKING, and enters a workplace with "
                     "inputs only from one of them or from nowhere (C13_moves, C13_moves_step); finished top-level components are unplaced at the "
                     "updated boundary (C13_removed_run). Nested products are outside the model (not claimed).",
                design="6 C13", technique="Lean 4 invariant proof over placement/allocation folds with a ghost list of moved components + phase-level correspondence"),
    "C01": dict(text="Proved for the model, for every model size, dependency mix, rule, absence list and step count: the dependency invariant DepInv "
                     "holds at every `updated` and `ticked` state of every run (C01_trace/C01_run/C01_final), task states only move forward "
                     "(C01_mono_*), and the logged (displayed) states satisfy the same clauses (C01_shown/C01_logged). The model is tied to the "
                     "code by lockstep on task states in every phase; the predicate is evaluated on every real trace.",
                design="6 C01", technique="Lean 4 invariant proof by induction over phases and steps + phase-level correspondence with the real code"),
    "C07": dict(text="Proved for the model: each step's worker/facility charge is cost_per_time iff logged WORKING (0 at absence steps), team/workplace/"
                     "organization/project entries are the sums one level down for every log entry of every run, and the total equals Σ rate × #WORKING "
                     "entries (C07_run_entry, C07_run_total; needs teams/workplaces to partition the resources, which the extraction guarantees). "
                     "Correspondence: cost and record phases on the cost and state logs.",
                design="6 C07", technique="Lean 4 proof (log/trace bridge, list-sum algebra) + phase-level correspondence"),
    "C08": dict(text="Proved for the model: all 17 logs have exactly `time` entries after any run (Aligned is an invariant of initialize/step/loop; "
                     "C08_run), time = number of recorded steps (C08_run_time), and entry k of every log is the displayed live value of the k-th "
                     "recorded state (C08_run_entry). Histories with backward simulation / log reversal are covered by C17/C18 checks, not here.",
                design="6 C08", technique="Lean 4 invariant proof + refinement of logs to the state trace + correspondence on all log fields"),
    "C11": dict(text="Sorting half proved for the model for every rule mode: each sort is the unique stable permutation ordered by the documented "
                     "key (C11_tasks/workers/facilities/workplaces, uniqueness in the *_generic theorems). No inversion: a worker newly given to a "
                     "later task of the sorted list that is skilled and targeted for an earlier non-automatic, non-facility task could not be added "
                     "to that earlier task at the end of the pass (C11_no_inversion, C11_no_inversion_step; 'earlier' = priority at least as high, "
                     "C11_before_key). Pair form for facility tasks of single-task components: a worker (or facility) newly given to a later task cannot, with a "
                     "still-free facility (worker) of the earlier task's workplace, be added to the earlier task (C11_no_inversion_pair, "
                     "C11_no_inversion_pair_step, C11_no_inversion_fac).",
                design="6 C11", technique="Lean 4 proof that the model's sort is the stable sort by the documented key + pure-function correspondence on arbitrary lists"),
    "C12": dict(text="Proved for the model: for every acyclic FS network, any time, any remaining-work vector ≥ 0 and ANY stale previous values, "
                     "the wave-front update returns the unique solution of the critical-path equations (C12, C12_unique, C12_eq_spec), slack ≥ 0 "
                     "and a zero-slack head-to-tail path exists (C12_slack_nonneg, C12_critical_path). Tied to the code by a pure-function stream "
                     "with arbitrary stale values and by lockstep at every update of every simulated step.",
                design="6 C12", technique="Lean 4 refinement proof (wave-front relaxation = longest path, uniqueness on DAGs) + pure-function and lockstep correspondence"),
    "C14": dict(text="Proved for the model: CompInv (FINISHED iff all tasks FINISHED; WORKING if some task WORKING; not NONE if some task READY/WORKING) "
                     "at every `updated` and `ticked` state of every run, FINISHED absorbing and never back to NONE (C14_trace, C14_absorbing_run).",
                design="6 C14", technique="Lean 4 invariant proof + phase-level correspondence on component and task states"),
    "C19": dict(text="Proved for the model for ALL state sequences: the four Gantt encoders equal the maximal-run encoding (runsOf is pinned down "
                     "independently: sound, complete, sorted, unique cover), plotly rows, extract_* membership, set_last_datetime (C19_*). Tied to "
                     "the code by an exhaustive-to-length-5/7 plus random stream through the real methods; date formatting is glue covered by "
                     "the stream only.",
                design="6 C19", technique="Lean 4 proof (fold invariant: encoder = run-length encoding) + exhaustive/random pure-function correspondence"),
}

checks = []
for p in props:
    pid = p["id"]
    if pid not in CLAIMS:
        continue
    c = CLAIMS[pid]
    checks.append(dict(
        property_id=pid,
        quick_cmd="/venv/bin/python harness/check.py %s --tier quick" % pid,
        thorough_cmd="/venv/bin/python harness/check.py %s --tier thorough" % pid,
        evidence_file="evidence/%s.json" % pid,
        replay_cmd_template="/venv/bin/python harness/check.py %s --replay {path}" % pid,
        engine="lean-model+correspondence",
        level_claimed=dict(category="proof", text=c["text"], design_ref="DESIGN.md section " + c["design"]),
        level_note=NOTE + " Theorems: " + ", ".join(t.replace("PDesy.", "") for t in obl.get(pid, {}).get("theorems", [])),
        technique=c["technique"],
    ))

na = [dict(property_id=p["id"], reason="not claimed yet: its theorem and/or correspondence stream is still being built in this round "
                                        "(machine-checked proof applies; see DESIGN.md section 6)")
      for p in props if p["id"] not in CLAIMS]

m = dict(
    version=1,
    setup_cmd="cd lean && lake build",
    hooks=dict(guard="PDESY_VERIF", enable="PDESY_VERIF=1 (set by harness/env.py before importing pDESy from /repo)",
               baseline_off_cmd="cd /repo && /venv/bin/python -m pytest -ra -q -p no:cacheprovider --timeout=900 --continue-on-collection-errors",
               source_commits=["1d13807"], add_only=True),
    engines=[dict(name="lean-model+correspondence", path="lean/ + harness/", serves_properties=[c["property_id"] for c in checks],
                  kind_free_text="Lean 4 model of the simulator with machine-checked theorems (lean/PDesy); Python harness that drives the real "
                                 "pDESy and the model's executable definitions (compiled driver) on the same inputs and diffs them")],
    checks=checks,
    notes="DESIGN.md explains the approach; known_findings.json lists repaired defects (fixed:) and kept findings.",
    not_applicable=na,
)
json.dump(m, open(os.path.join(VERIF, "MANIFEST.json"), "w"), indent=1, ensure_ascii=False)
print("claimed:", [c["property_id"] for c in checks])
