#!/venv/bin/python
"""Background search: can the order-dependence of the PERT values on SS/FF/SF networks (shown in the
model by C09_order_pert_ff_counterexample) change the LOGS of a real run?  Random dense FF/SF/FS models,
rule TSLACK (the only rule reading lst/est... plus LWRPT/SWRPT read cpl), few solo workers; every model is
run under ascending, descending and random task hashes; any difference in logs/time/status is printed."""
import sys, os, json, random, time
sys.path.insert(0, os.path.join(os.path.dirname(os.path.abspath(__file__)), "..", "harness"))
from histprops import final_of, digest
seed = int(sys.argv[1]) if len(sys.argv) > 1 else 0
budget = float(sys.argv[2]) if len(sys.argv) > 2 else 600
rng = random.Random(seed)
t0 = time.time()
n = found = 0
while time.time() - t0 < budget:
    n += 1
    nT = rng.randint(4, 8)
    tasks = []
    for i in range(nT):
        t = dict(work=rng.choice([0.0, 1.0, 1.0, 2.0, 3.0, 5.0]), prog=rng.choice([0.0, 0.0, 0.0, 1.0]), name="T%d" % i, inputs=[])
        if i > 0:
            for j in rng.sample(range(i), min(i, rng.choice([1, 2, 2, 3]))):
                t["inputs"].append([j, rng.choice([0, 0, 2, 2, 3, 1])])
        tasks.append(t)
    workers = [dict(skills={("T%d" % i): rng.choice([1.0, 2.0]) for i in range(nT) if rng.random() < 0.85}, solo=True)
               for _ in range(rng.randint(1, 3))]
    spec = dict(tasks=tasks, teams=[dict(workers=workers, targets=list(range(nT)))], components=[], workplaces=[])
    p = dict(rule=rng.choice([0, 0, 0, 7, 8]), absence=[], autoFlag=False, maxTime=80, initState=True, initLog=True)
    res = {}
    try:
        for hs in (list(range(nT)), list(reversed(range(nT))), rng.sample(range(nT), nT), [x * 8 + rng.randrange(8) for x in rng.sample(range(nT), nT)]):
            res[tuple(hs)] = digest(final_of(spec, p, hashes=hs))
    except Exception as e:
        print("EXC", repr(e), json.dumps(spec)); continue
    if len(set(res.values())) > 1:
        found += 1
        print("ORDER-DEPENDENT-LOGS", json.dumps(dict(spec=spec, params=p, hashes=[list(k) for k in res])), flush=True)
        if found >= 3:
            break
print("models", n, "found", found)
