#!/bin/bash
# usage: sweep_seeded.sh [seed-dir ...]   — re-runs the quick check of every filed seeded change against a scratch
# worktree of /repo's HEAD (so /repo itself stays untouched) and writes seeded/SWEEP.md
cd /verif || exit 2
wt=/tmp/seedrepo
git -C /repo worktree remove --force $wt 2>/dev/null; git -C /repo worktree prune
git -C /repo worktree add --detach $wt HEAD >/dev/null 2>&1 || exit 2
out=seeded/SWEEP.md
echo "# seeded changes re-run against /repo $(git -C /repo rev-parse --short HEAD), /verif $(git rev-parse --short HEAD)" > $out
echo "" >> $out; echo "| seed | property | result |" >> $out; echo "|---|---|---|" >> $out
dirs="$@"; [ -z "$dirs" ] && dirs=$(ls -d seeded/*/ | sort)
keep=$(mktemp -d /tmp/sweep.XXXXXX)
for d in $dirs; do
  d=${d%/}; id=$(basename $d)
  prop=$(python3 -c "import json;print(json.load(open('$d/meta.json'))['property'])" 2>/dev/null)
  [ -z "$prop" ] && continue
  patch=$(ls $d/patch_rebased*.diff 2>/dev/null | tail -1); [ -z "$patch" ] && patch=$d/patch.diff
  if ! git -C $wt apply /verif/$patch 2>/dev/null; then echo "| $id | $prop | patch does not apply to HEAD any more |" >> $out; continue; fi
  res=$(VERIF_OUT=$keep PDESY_REPO=$wt /venv/bin/python harness/check.py $prop --tier quick 2>&1 | grep -v "^WARNING conda\|^KNOWN-FINDING" | tail -2 | tr '\n' ' ' | cut -c1-160)
  git -C $wt checkout -- . ; git -C $wt clean -fdq
  case "$res" in *no-failing-input-found*) r="caught (no-failing-input-found)";; *VIOLATION*) r="caught (failing input)";; *" OK tier"*) r="**MISSED**";; *) r="? $res";; esac
  echo "| $id | $prop | $r |" >> $out
  echo "$id $prop $r"
done
rm -rf $keep
git -C /repo worktree remove --force $wt; git -C /repo worktree prune
