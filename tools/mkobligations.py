#!/usr/bin/env python3
"""Regenerates lean/obligations.json: every `theorem Cxx_*` of lean/PDesy/Props/*.lean that
is reachable from PDesy.lean, grouped by property, with the modules to re-check."""
import json, os, re
VERIF = os.path.dirname(os.path.dirname(os.path.abspath(__file__)))
LEAN = os.path.join(VERIF, "lean")
root = open(os.path.join(LEAN, "PDesy.lean")).read()
mods = re.findall(r"import (PDesy\.[\w.]+)", root)
def imports(mod):
    p = os.path.join(LEAN, mod.replace(".", "/") + ".lean")
    return re.findall(r"^import (PDesy\.[\w.]+)", open(p).read(), re.M)
out = {}
for mod in mods:
    if not mod.startswith("PDesy.Props."):
        continue
    src = open(os.path.join(LEAN, mod.replace(".", "/") + ".lean")).read()
    for name in re.findall(r"^theorem (C\d\d(?:_\w+)?)(?=[\s({:\[])", src, re.M):
        pid = name[:3]
        e = out.setdefault(pid, dict(modules=[], theorems=[]))
        if "counterexample" in name:
            continue
        e["theorems"].append("PDesy." + name)
        for mm in [x for x in imports(mod) if x.startswith("PDesy.Lemmas.") and x not in ("PDesy.Lemmas.Defs", "PDesy.Lemmas.Loop")] + [mod]:
            if mm not in e["modules"]:
                e["modules"].append(mm)
json.dump(dict(sorted(out.items())), open(os.path.join(LEAN, "obligations.json"), "w"), indent=1)
for k, v in sorted(out.items()):
    print(k, len(v["theorems"]), v["modules"])
