#!/usr/bin/env python3
"""Regenerates lean/obligations.json: every `theorem Cxx_*` of lean/PDesy/Props/*.lean that
is reachable from PDesy.lean, grouped by property, with the modules to re-check."""
import json, os, re
VERIF = os.path.dirname(os.path.dirname(os.path.abspath(__file__)))
LEAN = os.path.join(VERIF, "lean")
root = open(os.path.join(LEAN, "PDesy.lean")).read()
mods = re.findall(r"import (PDesy\.[\w.]+)", root)
def imports(mod):
    p = os.path.join(LEAN, mod.replace(".", "/") + ".lean")
    return re.findall(r"^import (PDesy\.[\w.]+)", open(p).read(), re.M)
out = {}
for mod in mods:
    if not mod.startswith("PDesy.Props."):
        continue
    src = open(os.path.join(LEAN, mod.replace(".", "/") + ".lean")).read()
    for name in re.findall(r"^theorem (C\d\d(?:_\w+)?)(?=[\s({:\[])", src, re.M):
        pid = name[:3]
        e = out.setdefault(pid, dict(modules=[], theorems=[]))
        if "counterexample" in name:
            continue
        e["theorems"].append("PDesy." + name)
        for mm in [x for x in imports(mod) if x.startswith("PDesy.Lemmas.") and x not in ("PDesy.Lemmas.Defs", "PDesy.Lemmas.Loop")] + [mod]:
            if mm not in e["modules"]:
                e["modules"].append(mm)
# theorems that also discharge a clause of another property
EXTRA = {
    "C08": [("PDesy.C17_aligned", "PDesy.Props.C17"), ("PDesy.C18_reverse_aligned", "PDesy.Props.C18"), ("PDesy.C18_sequence", "PDesy.Props.C18")],
    "C17": [("PDesy.C09_resim", "PDesy.Props.C09Det"), ("PDesy.C09_history_indep", "PDesy.Props.C09Det")],
    "C15": [("PDesy.C16_import_export", "PDesy.Props.C16"), ("PDesy.C16_resimulate", "PDesy.Props.C16")],
    "C10": [("PDesy.C07_absence_entry", "PDesy.Props.C07"), ("PDesy.C03_run", "PDesy.Props.C03")],
    "C02": [("PDesy.C03_run", "PDesy.Props.C03")],
    "C13": [("PDesy.C04_added_fac_step", "PDesy.Props.C04")],
}
for pid, lst in EXTRA.items():
    if pid in out:
        for thm, mod in lst:
            if thm not in out[pid]["theorems"]:
                out[pid]["theorems"].append(thm)
            if mod not in out[pid]["modules"]:
                out[pid]["modules"].append(mod)
json.dump(dict(sorted(out.items())), open(os.path.join(LEAN, "obligations.json"), "w"), indent=1)
for k, v in sorted(out.items()):
    print(k, len(v["theorems"]), v["modules"])
