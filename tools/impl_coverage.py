#!/venv/bin/python
"""Which lines and branches of the pDESy functions mirrored by the Lean model do the correspondence
streams actually execute?  Runs a small version of every property's stream in ONE process under
coverage.py (branch mode) and reports, per modelled function, the lines and branch arcs never taken.
The result (impl_coverage.json) is a statement about generator quality, not about any property:
a line the streams never execute is a line whose model counterpart is tied to nothing.

usage: tools/impl_coverage.py [n-per-stream (default 60)] [seed]"""
import sys
import os
import json
import inspect
import importlib

VERIF = os.path.dirname(os.path.dirname(os.path.abspath(__file__)))
sys.path.insert(0, os.path.join(VERIF, "harness"))
import coverage

cov = coverage.Coverage(branch=True, include=["/repo/pDESy/model/*"], data_file=None)
cov.start()
import env  # noqa: F401,E402
import simstream  # noqa: E402
import props  # noqa: E402
import fingerprint  # noqa: E402


def run_stream_inproc(seed, n, profile, prop_ids, want_lockstep=True, workers=None, start=0):
    out = simstream._work((seed, list(range(start, start + n)), profile, prop_ids, want_lockstep))
    out.sort(key=lambda r: r["index"])
    return out


simstream.run_stream = run_stream_inproc


def main():
    n = int(sys.argv[1]) if len(sys.argv) > 1 else 60
    seed = int(sys.argv[2]) if len(sys.argv) > 2 else 0
    ran = {}
    for pid in sorted(props.REGISTRY):
        ctx = props.Context(pid=pid, seed=seed, tier="quick", n_override=n)
        try:
            props.REGISTRY[pid]["run"](ctx)
            ran[pid] = dict(evaluations=ctx.evaluations, violations=len(ctx.violations), infra=len(ctx.infra))
        except Exception as e:
            ran[pid] = dict(error="%s: %s" % (type(e).__name__, e))
        print(pid, ran[pid], flush=True)
    cov.stop()
    data = cov.get_data()
    report = {}
    tot_l = tot_m = tot_b = tot_bm = 0
    for mn in fingerprint.MODULES:
        mod = importlib.import_module("pDESy.model." + mn)
        fname = mod.__file__
        try:
            an = cov._analyze(fname)
        except Exception as e:
            print("cannot analyse", fname, e)
            continue
        executed = set(data.lines(fname) or [])
        statements = set(an.statements)
        bstats = an.branch_stats()            # line -> (possible exits, taken exits)
        bmiss = an.missing_branch_arcs()      # line -> [targets never taken]
        for name, obj in vars(mod).items():
            items = []
            if inspect.isclass(obj) and obj.__module__ == mod.__name__:
                for fn, f in vars(obj).items():
                    if inspect.isfunction(f):
                        items.append(("%s.%s.%s" % (mn, name, fn), f))
            elif inspect.isfunction(obj) and obj.__module__ == mod.__name__:
                items.append(("%s.%s" % (mn, name), obj))
            for qn, f in items:
                if any(s in qn for s in fingerprint.SKIP):
                    continue
                try:
                    src, lo = inspect.getsourcelines(f)
                except (OSError, TypeError):
                    continue
                hi = lo + len(src) - 1
                st = sorted(x for x in statements if lo < x <= hi)   # the def line itself is module-level
                if not st:
                    continue
                miss = [x for x in st if x not in executed]
                blines = [x for x in bstats if lo < x <= hi]
                n_arcs = sum(bstats[x][0] for x in blines)
                n_taken = sum(bstats[x][1] for x in blines)
                amiss = [(a, b) for a in blines if a in executed for b in bmiss.get(a, [])]
                report[qn] = dict(lines=len(st), missed_lines=miss, branch_arcs=n_arcs,
                                  missed_arcs=["%d->%d" % (a, b) for a, b in amiss], entered=len(miss) < len(st))
                tot_l += len(st)
                tot_m += len(miss)
                tot_b += n_arcs
                tot_bm += n_arcs - n_taken
    never = sorted(q for q, r in report.items() if not r["entered"])
    partial = {q: r for q, r in report.items() if r["entered"] and (r["missed_lines"] or r["missed_arcs"])}
    summary = dict(n_per_stream=n, seed=seed, streams=ran, functions=len(report), never_entered=never,
                   statements=tot_l, statements_executed=tot_l - tot_m, branch_arcs=tot_b, branch_arcs_taken=tot_b - tot_bm,
                   partially_covered=partial)
    os.makedirs(os.path.join(VERIF, "coverage"), exist_ok=True)
    json.dump(summary, open(os.path.join(VERIF, "coverage", "impl_coverage.json"), "w"), indent=1)
    print("modelled functions: %d   never entered: %d   statements %d/%d   branch arcs %d/%d" % (
        len(report), len(never), tot_l - tot_m, tot_l, tot_b - tot_bm, tot_b))
    for q in never:
        print("  NEVER", q)
    for q, r in sorted(partial.items()):
        print("  PART ", q, "lines", r["missed_lines"][:12], "arcs", r["missed_arcs"][:8])


if __name__ == "__main__":
    main()
